//! factgen — rustc_private driver that dumps type-checked MIR facts as JSON.
//!
//! Used as RUSTC_WORKSPACE_WRAPPER under `cargo +nightly check`.  For every workspace crate
//! compiled it writes one file `$FACTGEN_OUT/<crate>-<metadata>.json` (single write).
//! Nothing under analysis is executed; the driver only reads compiler data structures.
#![feature(rustc_private)]
#![allow(clippy::all)]

extern crate rustc_abi;
extern crate rustc_data_structures;
extern crate rustc_driver;
extern crate rustc_hir;
extern crate rustc_interface;
extern crate rustc_middle;
extern crate rustc_session;
extern crate rustc_span;

use rustc_driver::{Callbacks, Compilation};
use rustc_hir::def::DefKind;
use rustc_hir::def_id::{DefId, LocalDefId};
use rustc_interface::interface::Compiler;
use rustc_middle::mir::{
    self, AggregateKind, BasicBlock, Body, BorrowKind, CastKind, Const, ConstValue, Operand,
    Place, PlaceElem, Rvalue, StatementKind, TerminatorKind, UnwindAction, VarDebugInfoContents,
};
use rustc_middle::mir::PlaceTy;
use rustc_middle::ty::print::with_no_trimmed_paths;
use rustc_middle::ty::{self, GenericArgsRef, Instance, Ty, TyCtxt, TyKind, TypingEnv};
use rustc_span::{Span, Symbol};
use std::collections::HashMap;
use std::fmt::Write as _;

// ------------------------------------------------------------------------------------------
// tiny JSON writer

fn esc(s: &str, out: &mut String) {
    out.push('"');
    for c in s.chars() {
        match c {
            '"' => out.push_str("\\\""),
            '\\' => out.push_str("\\\\"),
            '\n' => out.push_str("\\n"),
            '\r' => out.push_str("\\r"),
            '\t' => out.push_str("\\t"),
            c if (c as u32) < 0x20 => {
                let _ = write!(out, "\\u{:04x}", c as u32);
            }
            c => out.push(c),
        }
    }
    out.push('"');
}

fn jstr(s: &str) -> String {
    let mut o = String::with_capacity(s.len() + 2);
    esc(s, &mut o);
    o
}

// ------------------------------------------------------------------------------------------

struct Ctx<'tcx> {
    tcx: TyCtxt<'tcx>,
    krate: String,
    tys: Vec<String>,
    ty_ix: HashMap<String, usize>,
}

impl<'tcx> Ctx<'tcx> {
    fn ty_id(&mut self, ty: Ty<'tcx>) -> usize {
        let s = with_no_trimmed_paths!(ty.to_string());
        if let Some(&i) = self.ty_ix.get(&s) {
            return i;
        }
        let i = self.tys.len();
        self.tys.push(s.clone());
        self.ty_ix.insert(s, i);
        i
    }

    /// Absolute def path: always prefixed with the crate name.
    fn path(&self, did: DefId) -> String {
        let s = with_no_trimmed_paths!(self.tcx.def_path_str(did));
        if did.is_local() {
            if s.starts_with('<') {
                // `<Foo as Trait>::method` style keeps its own crate-less types; prefix marker
                s
            } else {
                format!("{}::{}", self.krate, s)
            }
        } else {
            s
        }
    }

    fn span_line(&self, sp: Span) -> (String, usize) {
        let sm = self.tcx.sess.source_map();
        let sp = sp.source_callsite();
        let lo = sm.lookup_char_pos(sp.lo());
        let f = match &lo.file.name {
            rustc_span::FileName::Real(r) => match r.local_path() {
                Some(p) => p.display().to_string(),
                None => format!("{:?}", lo.file.name),
            },
            other => format!("{:?}", other),
        };
        (f, lo.line)
    }

    /// macro expansion chain (innermost first), as `crate::macro` names, max 4
    fn mac_chain(&self, sp: Span) -> Vec<String> {
        let mut v = Vec::new();
        let mut sp = sp;
        let mut n = 0;
        while sp.from_expansion() && n < 6 {
            let ed = sp.ctxt().outer_expn_data();
            let name = match ed.kind {
                rustc_span::ExpnKind::Macro(_, sym) => {
                    let cr = ed
                        .macro_def_id
                        .map(|d| self.tcx.crate_name(d.krate).to_string())
                        .unwrap_or_default();
                    format!("{}::{}", cr, sym)
                }
                rustc_span::ExpnKind::Desugaring(k) => format!("desugar::{:?}", k),
                rustc_span::ExpnKind::AstPass(k) => format!("astpass::{:?}", k),
                rustc_span::ExpnKind::Root => "root".to_string(),
            };
            v.push(name);
            sp = ed.call_site;
            n += 1;
        }
        v
    }

    fn generic_args(&mut self, args: GenericArgsRef<'tcx>) -> String {
        let mut o = String::from("[");
        let mut first = true;
        for a in args.iter() {
            let s = if let Some(t) = a.as_type() {
                with_no_trimmed_paths!(t.to_string())
            } else if let Some(c) = a.as_const() {
                with_no_trimmed_paths!(c.to_string())
            } else {
                continue;
            };
            if !first {
                o.push(',');
            }
            first = false;
            esc(&s, &mut o);
        }
        o.push(']');
        o
    }
}

struct BodyCx<'a, 'tcx> {
    cx: &'a mut Ctx<'tcx>,
    body: &'a Body<'tcx>,
    def: DefId,
    env: TypingEnv<'tcx>,
}

impl<'a, 'tcx> BodyCx<'a, 'tcx> {
    fn tcx(&self) -> TyCtxt<'tcx> {
        self.cx.tcx
    }

    fn field_name(&self, pty: PlaceTy<'tcx>, idx: usize) -> (Option<String>, String) {
        let tcx = self.tcx();
        match pty.ty.kind() {
            TyKind::Adt(adt, _) => {
                let vi = match pty.variant_index {
                    Some(v) => v,
                    None => {
                        if adt.is_enum() {
                            return (None, self.cx.path(adt.did()));
                        }
                        rustc_abi::FIRST_VARIANT
                    }
                };
                let v = adt.variant(vi);
                let name = v.fields.iter().nth(idx).map(|f| f.name.to_string());
                (name, self.cx.path(adt.did()))
            }
            TyKind::Closure(did, _) | TyKind::Coroutine(did, _) | TyKind::CoroutineClosure(did, _) => {
                let name = if let Some(l) = did.as_local() {
                    tcx.closure_saved_names_of_captured_variables(l)
                        .iter()
                        .nth(idx)
                        .map(|s| s.to_string())
                } else {
                    None
                };
                (name, "closure".to_string())
            }
            TyKind::Tuple(_) => (None, "tuple".to_string()),
            _ => (None, "?".to_string()),
        }
    }

    fn place(&mut self, p: &Place<'tcx>) -> String {
        let tcx = self.tcx();
        let mut o = String::new();
        let _ = write!(o, "{{\"l\":{}", p.local.as_usize());
        if !p.projection.is_empty() {
            o.push_str(",\"pr\":[");
            let mut pty = PlaceTy::from_ty(self.body.local_decls[p.local].ty);
            let mut first = true;
            for elem in p.projection.iter() {
                if !first {
                    o.push(',');
                }
                first = false;
                match elem {
                    PlaceElem::Deref => o.push_str("\"*\""),
                    PlaceElem::Field(f, _) => {
                        let (name, of) = self.field_name(pty, f.as_usize());
                        let _ = write!(o, "{{\"f\":{}", f.as_usize());
                        if let Some(n) = name {
                            o.push_str(",\"n\":");
                            esc(&n, &mut o);
                        }
                        o.push_str(",\"of\":");
                        esc(&of, &mut o);
                        if let (Some(v), TyKind::Adt(adt, _)) = (pty.variant_index, pty.ty.kind()) {
                            o.push_str(",\"var\":");
                            esc(adt.variant(v).name.as_str(), &mut o);
                        }
                        o.push('}');
                    }
                    PlaceElem::Index(l) => {
                        let _ = write!(o, "{{\"ix\":{}}}", l.as_usize());
                    }
                    PlaceElem::ConstantIndex { offset, min_length, from_end } => {
                        let _ = write!(
                            o,
                            "{{\"ci\":{},\"min\":{},\"end\":{}}}",
                            offset, min_length, from_end
                        );
                    }
                    PlaceElem::Subslice { from, to, from_end } => {
                        let _ = write!(o, "{{\"sub\":[{},{}],\"end\":{}}}", from, to, from_end);
                    }
                    PlaceElem::Downcast(sym, vi) => {
                        let name = sym.map(|s| s.to_string()).unwrap_or_else(|| {
                            if let TyKind::Adt(adt, _) = pty.ty.kind() {
                                adt.variant(vi).name.to_string()
                            } else {
                                format!("#{}", vi.as_usize())
                            }
                        });
                        o.push_str("{\"v\":");
                        esc(&name, &mut o);
                        let _ = write!(o, ",\"vi\":{}}}", vi.as_usize());
                    }
                    PlaceElem::OpaqueCast(_) => o.push_str("\"opaque\""),
                    PlaceElem::UnwrapUnsafeBinder(_) => o.push_str("\"unbind\""),
                }
                pty = pty.projection_ty(tcx, elem);
            }
            o.push(']');
        }
        o.push('}');
        o
    }

    fn const_val(&mut self, c: &Const<'tcx>, o: &mut String) {
        let tcx = self.tcx();
        let ty = c.ty();
        let tid = self.cx.ty_id(ty);
        let _ = write!(o, "{{\"ty\":{}", tid);
        // function items
        if let TyKind::FnDef(did, args) = ty.kind() {
            o.push_str(",\"fn\":");
            let p = self.cx.path(*did);
            esc(&p, o);
            let ga = self.cx.generic_args(args);
            let _ = write!(o, ",\"ga\":{}", ga);
            o.push('}');
            return;
        }
        match c {
            Const::Unevaluated(u, _) => {
                o.push_str(",\"def\":");
                let p = self.cx.path(u.def);
                esc(&p, o);
                if let Some(pr) = u.promoted {
                    let _ = write!(o, ",\"promoted\":{}", pr.as_usize());
                }
                if !u.args.is_empty() {
                    let ga = self.cx.generic_args(u.args);
                    let _ = write!(o, ",\"ga\":{}", ga);
                }
            }
            _ => {}
        }
        // value
        let val: Option<ConstValue> = match c {
            Const::Val(v, _) => Some(*v),
            Const::Ty(_, tc) => match tc.kind() {
                ty::ConstKind::Value(cv) => Some(tcx.valtree_to_const_val(cv)),
                _ => None,
            },
            Const::Unevaluated(u, _) => {
                if u.promoted.is_some() {
                    None
                } else {
                    // Only evaluate non-generic named consts of simple type (cheap, no cycles:
                    // bodies were cloned before anything is evaluated).
                    if u.args.iter().all(|a| a.as_type().is_none() && a.as_const().is_none())
                        && simple_ty(ty)
                    {
                        tcx.const_eval_poly(u.def).ok()
                    } else {
                        None
                    }
                }
            }
        };
        if let Some(v) = val {
            self.value(v, ty, o);
        }
        o.push('}');
    }

    fn value(&mut self, v: ConstValue, ty: Ty<'tcx>, o: &mut String) {
        write_value(self.tcx(), self.env, v, ty, o);
    }

    fn operand(&mut self, op: &Operand<'tcx>) -> String {
        match op {
            Operand::Copy(p) => format!("{{\"cp\":{}}}", self.place(p)),
            Operand::Move(p) => format!("{{\"mv\":{}}}", self.place(p)),
            Operand::Constant(c) => {
                let mut o = String::from("{\"k\":");
                self.const_val(&c.const_, &mut o);
                o.push('}');
                o
            }
            #[allow(unreachable_patterns)]
            _ => "{\"other\":true}".to_string(),
        }
    }

    fn rvalue(&mut self, rv: &Rvalue<'tcx>) -> String {
        let tcx = self.tcx();
        match rv {
            Rvalue::Use(op, ..) => format!("{{\"use\":{}}}", self.operand(op)),
            Rvalue::Repeat(op, n) => {
                format!("{{\"repeat\":{},\"n\":{}}}", self.operand(op), jstr(&n.to_string()))
            }
            Rvalue::Ref(_, bk, p) => {
                let m = matches!(bk, BorrowKind::Mut { .. });
                format!("{{\"ref\":{},\"mut\":{}}}", self.place(p), m)
            }
            Rvalue::RawPtr(_, p) => format!("{{\"rawptr\":{}}}", self.place(p)),
            Rvalue::Cast(kind, op, ty) => {
                let k = match kind {
                    CastKind::IntToInt => "IntToInt".to_string(),
                    CastKind::Transmute => "Transmute".to_string(),
                    CastKind::PtrToPtr => "PtrToPtr".to_string(),
                    CastKind::PointerCoercion(pc, _) => format!("Coerce::{:?}", pc),
                    other => format!("{:?}", other),
                };
                let t = self.cx.ty_id(*ty);
                format!("{{\"cast\":{},\"op\":{},\"ty\":{}}}", jstr(&k), self.operand(op), t)
            }
            Rvalue::BinaryOp(op, ab) => {
                let (a, b) = &**ab;
                format!(
                    "{{\"bin\":{},\"a\":{},\"b\":{}}}",
                    jstr(&format!("{:?}", op)),
                    self.operand(a),
                    self.operand(b)
                )
            }
            Rvalue::UnaryOp(op, a) => {
                format!("{{\"un\":{},\"a\":{}}}", jstr(&format!("{:?}", op)), self.operand(a))
            }
            Rvalue::Discriminant(p) => {
                let pty = p.ty(&self.body.local_decls, tcx).ty;
                let mut extra = String::new();
                if let TyKind::Adt(adt, _) = pty.kind() {
                    if adt.is_enum() {
                        extra.push_str(",\"adt\":");
                        let ap = self.cx.path(adt.did());
                        esc(&ap, &mut extra);
                        extra.push_str(",\"variants\":[");
                        for (i, (vi, d)) in adt.discriminants(tcx).enumerate() {
                            if i > 0 {
                                extra.push(',');
                            }
                            let _ = write!(extra, "[{},", d.val);
                            esc(adt.variant(vi).name.as_str(), &mut extra);
                            extra.push(']');
                        }
                        extra.push(']');
                    }
                }
                format!("{{\"discr\":{}{}}}", self.place(p), extra)
            }
            Rvalue::CopyForDeref(p) => format!("{{\"use\":{{\"cp\":{}}}}}", self.place(p)),
            Rvalue::Aggregate(kind, ops) => {
                let mut o = String::from("{\"agg\":{");
                match &**kind {
                    AggregateKind::Array(_) => o.push_str("\"kind\":\"array\""),
                    AggregateKind::Tuple => o.push_str("\"kind\":\"tuple\""),
                    AggregateKind::Adt(did, vi, args, _, _) => {
                        let adt = tcx.adt_def(*did);
                        let v = adt.variant(*vi);
                        o.push_str("\"kind\":\"adt\",\"adt\":");
                        let p = self.cx.path(*did);
                        esc(&p, &mut o);
                        o.push_str(",\"variant\":");
                        esc(v.name.as_str(), &mut o);
                        let _ = write!(o, ",\"vi\":{}", vi.as_usize());
                        o.push_str(",\"fields\":[");
                        for (i, f) in v.fields.iter().enumerate() {
                            if i > 0 {
                                o.push(',');
                            }
                            esc(f.name.as_str(), &mut o);
                        }
                        o.push(']');
                        let ga = self.cx.generic_args(args);
                        let _ = write!(o, ",\"ga\":{}", ga);
                    }
                    AggregateKind::Closure(did, _)
                    | AggregateKind::Coroutine(did, _)
                    | AggregateKind::CoroutineClosure(did, _) => {
                        let k = match &**kind {
                            AggregateKind::Closure(..) => "closure",
                            AggregateKind::Coroutine(..) => "coroutine",
                            _ => "coroutine_closure",
                        };
                        let _ = write!(o, "\"kind\":\"{}\",\"def\":", k);
                        let p = self.cx.path(*did);
                        esc(&p, &mut o);
                        if let Some(l) = did.as_local() {
                            o.push_str(",\"fields\":[");
                            for (i, s) in
                                tcx.closure_saved_names_of_captured_variables(l).iter().enumerate()
                            {
                                if i > 0 {
                                    o.push(',');
                                }
                                esc(s.as_str(), &mut o);
                            }
                            o.push(']');
                        }
                    }
                    AggregateKind::RawPtr(..) => o.push_str("\"kind\":\"rawptr\""),
                }
                o.push_str("},\"ops\":[");
                for (i, op) in ops.iter().enumerate() {
                    if i > 0 {
                        o.push(',');
                    }
                    let s = self.operand(op);
                    o.push_str(&s);
                }
                o.push_str("]}");
                o
            }
            Rvalue::ThreadLocalRef(d) => format!("{{\"tls\":{}}}", jstr(&self.cx.path(*d))),
            other => format!("{{\"other\":{}}}", jstr(&format!("{:?}", other).chars().take(80).collect::<String>())),
        }
    }

    fn callee(&mut self, func: &Operand<'tcx>, o: &mut String) {
        let tcx = self.tcx();
        if let Some((did, args)) = func.const_fn_def() {
            o.push_str("\"fn\":");
            let p = self.cx.path(did);
            esc(&p, o);
            // item name (last segment) for quick matching
            let name = tcx.item_name(did);
            o.push_str(",\"name\":");
            esc(name.as_str(), o);
            let ga = self.cx.generic_args(args);
            let _ = write!(o, ",\"ga\":{}", ga);
            if let Some(tr) = tcx.trait_of_assoc(did) {
                o.push_str(",\"trait\":");
                let trp = self.cx.path(tr);
                esc(&trp, o);
                if args.len() > 0 {
                    if let Some(t) = args[0].as_type() {
                        o.push_str(",\"self_ty\":");
                        esc(&with_no_trimmed_paths!(t.to_string()), o);
                    }
                }
                // try to resolve to an impl
                let r = std::panic::catch_unwind(std::panic::AssertUnwindSafe(|| {
                    Instance::try_resolve(tcx, self.env, did, args)
                }));
                if let Ok(Ok(Some(inst))) = r {
                    let rd = inst.def_id();
                    if rd != did {
                        o.push_str(",\"resolved\":");
                        let p = self.cx.path(rd);
                        esc(&p, o);
                    }
                }
            } else if let Some(imp) = tcx.impl_of_assoc(did) {
                // inherent or trait impl method named directly
                let st = tcx.type_of(imp).instantiate_identity().skip_norm_wip();
                o.push_str(",\"impl_self\":");
                esc(&with_no_trimmed_paths!(st.to_string()), o);
                if let Some(tr) = tcx.impl_opt_trait_ref(imp) {
                    o.push_str(",\"impl_trait\":");
                    let trp = self.cx.path(tr.skip_binder().def_id);
                    esc(&trp, o);
                }
            }
        } else {
            o.push_str("\"fop\":");
            let s = self.operand(func);
            o.push_str(&s);
        }
    }

    fn bb(t: BasicBlock) -> usize {
        t.as_usize()
    }

    fn unwind(u: &UnwindAction) -> String {
        match u {
            UnwindAction::Cleanup(b) => format!("{}", b.as_usize()),
            _ => "null".to_string(),
        }
    }

    fn src(&mut self, sp: Span, o: &mut String) {
        let (_, line) = self.cx.span_line(sp);
        let _ = write!(o, ",\"ln\":{}", line);
        if sp.from_expansion() {
            let ch = self.cx.mac_chain(sp);
            o.push_str(",\"mac\":[");
            for (i, m) in ch.iter().enumerate() {
                if i > 0 {
                    o.push(',');
                }
                esc(m, o);
            }
            o.push(']');
        }
    }

    fn dump(&mut self, path: &str, kind: &str, parent: Option<String>) -> String {
        let body = self.body;
        let mut o = String::with_capacity(4096);
        o.push_str("{\"path\":");
        esc(path, &mut o);
        let _ = write!(o, ",\"kind\":\"{}\"", kind);
        let (file, line) = self.cx.span_line(body.span);
        o.push_str(",\"file\":");
        esc(&file, &mut o);
        let _ = write!(o, ",\"line\":{}", line);
        let _ = write!(o, ",\"exp\":{}", body.span.from_expansion());
        if let Some(p) = parent {
            o.push_str(",\"parent\":");
            esc(&p, &mut o);
        }
        let _ = write!(o, ",\"argc\":{}", body.arg_count);
        // locals
        o.push_str(",\"locals\":[");
        for (i, d) in body.local_decls.iter().enumerate() {
            if i > 0 {
                o.push(',');
            }
            let t = self.cx.ty_id(d.ty);
            let _ = write!(o, "{}", t);
        }
        o.push(']');
        // names
        o.push_str(",\"names\":[");
        let mut first = true;
        for v in body.var_debug_info.iter() {
            if let VarDebugInfoContents::Place(p) = &v.value {
                if !first {
                    o.push(',');
                }
                first = false;
                o.push_str("{\"n\":");
                esc(v.name.as_str(), &mut o);
                let pl = self.place(p);
                let _ = write!(o, ",\"p\":{}", pl);
                if let Some(a) = v.argument_index {
                    let _ = write!(o, ",\"arg\":{}", a);
                }
                o.push('}');
            }
        }
        o.push(']');
        // blocks
        o.push_str(",\"blocks\":[");
        for (bi, data) in body.basic_blocks.iter().enumerate() {
            if bi > 0 {
                o.push(',');
            }
            o.push('{');
            if data.is_cleanup {
                o.push_str("\"cleanup\":true,");
            }
            o.push_str("\"stmts\":[");
            let mut firsts = true;
            for st in data.statements.iter() {
                let s = match &st.kind {
                    StatementKind::Assign(b) => {
                        let (p, rv) = &**b;
                        let mut s = format!("{{\"p\":{},\"rv\":{}", self.place(p), self.rvalue(rv));
                        self.src(st.source_info.span, &mut s);
                        s.push('}');
                        Some(s)
                    }
                    StatementKind::SetDiscriminant { place, variant_index } => {
                        let pty = place.ty(&body.local_decls, self.tcx());
                        let vn = if let TyKind::Adt(adt, _) = pty.ty.kind() {
                            adt.variant(*variant_index).name.to_string()
                        } else {
                            String::new()
                        };
                        let mut s = format!(
                            "{{\"setdiscr\":{},\"variant\":{}",
                            self.place(place),
                            jstr(&vn)
                        );
                        self.src(st.source_info.span, &mut s);
                        s.push('}');
                        Some(s)
                    }
                    _ => None,
                };
                if let Some(s) = s {
                    if !firsts {
                        o.push(',');
                    }
                    firsts = false;
                    o.push_str(&s);
                }
            }
            o.push_str("],\"term\":{");
            let term = data.terminator();
            match &term.kind {
                TerminatorKind::Goto { target } => {
                    let _ = write!(o, "\"k\":\"goto\",\"t\":{}", Self::bb(*target));
                }
                TerminatorKind::SwitchInt { discr, targets } => {
                    let d = self.operand(discr);
                    let _ = write!(o, "\"k\":\"switch\",\"on\":{},\"arms\":[", d);
                    for (i, (v, t)) in targets.iter().enumerate() {
                        if i > 0 {
                            o.push(',');
                        }
                        let _ = write!(o, "[{},{}]", v, Self::bb(t));
                    }
                    let _ = write!(o, "],\"else\":{}", Self::bb(targets.otherwise()));
                }
                TerminatorKind::UnwindResume => o.push_str("\"k\":\"resume\""),
                TerminatorKind::UnwindTerminate(_) => o.push_str("\"k\":\"terminate\""),
                TerminatorKind::Return => o.push_str("\"k\":\"ret\""),
                TerminatorKind::Unreachable => o.push_str("\"k\":\"unreachable\""),
                TerminatorKind::Drop { place, target, unwind, .. } => {
                    let p = self.place(place);
                    let t = self.cx.ty_id(place.ty(&body.local_decls, self.tcx()).ty);
                    let _ = write!(
                        o,
                        "\"k\":\"drop\",\"p\":{},\"ty\":{},\"t\":{},\"u\":{}",
                        p,
                        t,
                        Self::bb(*target),
                        Self::unwind(unwind)
                    );
                }
                TerminatorKind::Call { func, args, destination, target, unwind, .. } => {
                    o.push_str("\"k\":\"call\",");
                    self.callee(func, &mut o);
                    o.push_str(",\"args\":[");
                    for (i, a) in args.iter().enumerate() {
                        if i > 0 {
                            o.push(',');
                        }
                        let s = self.operand(&a.node);
                        o.push_str(&s);
                    }
                    let d = self.place(destination);
                    let _ = write!(o, "],\"dest\":{}", d);
                    match target {
                        Some(t) => {
                            let _ = write!(o, ",\"t\":{}", Self::bb(*t));
                        }
                        None => o.push_str(",\"t\":null"),
                    }
                    let _ = write!(o, ",\"u\":{}", Self::unwind(unwind));
                }
                TerminatorKind::TailCall { func, args, .. } => {
                    o.push_str("\"k\":\"tailcall\",");
                    self.callee(func, &mut o);
                    o.push_str(",\"args\":[");
                    for (i, a) in args.iter().enumerate() {
                        if i > 0 {
                            o.push(',');
                        }
                        let s = self.operand(&a.node);
                        o.push_str(&s);
                    }
                    o.push(']');
                }
                TerminatorKind::Assert { cond, expected, msg, target, unwind } => {
                    let c = self.operand(cond);
                    let kind = match &**msg {
                        mir::AssertKind::BoundsCheck { .. } => "BoundsCheck".to_string(),
                        mir::AssertKind::Overflow(op, ..) => format!("Overflow::{:?}", op),
                        mir::AssertKind::OverflowNeg(_) => "OverflowNeg".to_string(),
                        mir::AssertKind::DivisionByZero(_) => "DivisionByZero".to_string(),
                        mir::AssertKind::RemainderByZero(_) => "RemainderByZero".to_string(),
                        mir::AssertKind::ResumedAfterReturn(_) => "ResumedAfterReturn".to_string(),
                        mir::AssertKind::ResumedAfterPanic(_) => "ResumedAfterPanic".to_string(),
                        mir::AssertKind::ResumedAfterDrop(_) => "ResumedAfterDrop".to_string(),
                        _ => "Other".to_string(),
                    };
                    let _ = write!(
                        o,
                        "\"k\":\"assert\",\"cond\":{},\"expected\":{},\"msg\":{},\"t\":{},\"u\":{}",
                        c,
                        expected,
                        jstr(&kind),
                        Self::bb(*target),
                        Self::unwind(unwind)
                    );
                    if let mir::AssertKind::BoundsCheck { len, index } = &**msg {
                        let l = self.operand(len);
                        let i = self.operand(index);
                        let _ = write!(o, ",\"len\":{},\"index\":{}", l, i);
                    }
                }
                TerminatorKind::Yield { value, resume, resume_arg, drop } => {
                    let v = self.operand(value);
                    let ra = self.place(resume_arg);
                    let _ = write!(
                        o,
                        "\"k\":\"yield\",\"v\":{},\"t\":{},\"resume_arg\":{}",
                        v,
                        Self::bb(*resume),
                        ra
                    );
                    if let Some(d) = drop {
                        let _ = write!(o, ",\"drop\":{}", Self::bb(*d));
                    }
                }
                TerminatorKind::CoroutineDrop => o.push_str("\"k\":\"coroutine_drop\""),
                TerminatorKind::FalseEdge { real_target, imaginary_target } => {
                    let _ = write!(
                        o,
                        "\"k\":\"goto\",\"t\":{},\"false_edge\":{}",
                        Self::bb(*real_target),
                        Self::bb(*imaginary_target)
                    );
                }
                TerminatorKind::FalseUnwind { real_target, .. } => {
                    let _ = write!(o, "\"k\":\"goto\",\"t\":{},\"false_unwind\":true", Self::bb(*real_target));
                }
                TerminatorKind::InlineAsm { .. } => o.push_str("\"k\":\"asm\""),
            }
            self.src(term.source_info.span, &mut o);
            o.push_str("}}");
        }
        o.push_str("]}");
        o
    }
}

fn simple_ty(ty: Ty<'_>) -> bool {
    match ty.kind() {
        TyKind::Bool | TyKind::Char | TyKind::Int(_) | TyKind::Uint(_) => true,
        TyKind::Ref(_, inner, _) => match inner.kind() {
            TyKind::Str => true,
            TyKind::Slice(t) | TyKind::Array(t, _) => matches!(t.kind(), TyKind::Uint(ty::UintTy::U8)),
            _ => false,
        },
        _ => false,
    }
}

fn write_value<'tcx>(tcx: TyCtxt<'tcx>, _env: TypingEnv<'tcx>, v: ConstValue, ty: Ty<'tcx>, o: &mut String) {
    match v {
        ConstValue::Scalar(mir::interpret::Scalar::Int(si)) => match ty.kind() {
            TyKind::Bool => {
                let _ = write!(o, ",\"v\":{}", si.to_bits(si.size()) != 0);
            }
            TyKind::Char => {
                let c = char::from_u32(si.to_bits(si.size()) as u32).unwrap_or('?');
                o.push_str(",\"v\":");
                esc(&c.to_string(), o);
                let _ = write!(o, ",\"u\":{}", si.to_bits(si.size()));
            }
            TyKind::Int(_) => {
                let bits = si.to_bits(si.size());
                let sz = si.size().bits();
                let val: i128 = if sz == 128 {
                    bits as i128
                } else if bits >> (sz - 1) & 1 == 1 {
                    (bits as i128) - (1i128 << sz)
                } else {
                    bits as i128
                };
                let _ = write!(o, ",\"v\":{}", val);
            }
            TyKind::Uint(_) => {
                let bits = si.to_bits(si.size());
                if bits > (1u128 << 63) {
                    // python handles bigints, JSON numbers fine
                    let _ = write!(o, ",\"v\":{}", bits);
                } else {
                    let _ = write!(o, ",\"v\":{}", bits);
                }
            }
            TyKind::Adt(adt, _) if adt.is_enum() => {
                // fieldless enum held in a scalar: map discr -> variant
                let bits = si.to_bits(si.size());
                let mut name = None;
                for (vi, d) in adt.discriminants(tcx) {
                    if d.val == bits {
                        name = Some(adt.variant(vi).name.to_string());
                    }
                }
                let _ = write!(o, ",\"v\":{}", bits);
                if let Some(n) = name {
                    o.push_str(",\"variant\":");
                    esc(&n, o);
                }
            }
            _ => {
                let _ = write!(o, ",\"v\":{}", si.to_bits(si.size()));
            }
        },
        ConstValue::Scalar(mir::interpret::Scalar::Ptr(ptr, _)) => {
            // pointer to an allocation: dump bytes if it is plain memory without provenance
            let (prov, off) = ptr.prov_and_relative_offset();
            let aid = prov.alloc_id();
            if let Some(mir::interpret::GlobalAlloc::Memory(alloc)) = tcx.try_get_global_alloc(aid) {
                let a = alloc.inner();
                if a.provenance().ptrs().is_empty() {
                    let bytes = a.inspect_with_uninit_and_ptr_outside_interpreter(
                        off.bytes_usize()..a.len(),
                    );
                    if bytes.len() <= 4096 {
                        o.push_str(",\"bytes\":[");
                        for (i, b) in bytes.iter().enumerate() {
                            if i > 0 {
                                o.push(',');
                            }
                            let _ = write!(o, "{}", b);
                        }
                        o.push(']');
                    }
                }
            }
        }
        ConstValue::Slice { .. } => {
            if let TyKind::Ref(_, inner, _) = ty.kind() {
                let is_str = matches!(inner.kind(), TyKind::Str);
                let is_u8 = match inner.kind() {
                    TyKind::Slice(t) => matches!(t.kind(), TyKind::Uint(ty::UintTy::U8)),
                    _ => false,
                };
                if is_str || is_u8 {
                    if let Some(bytes) = v.try_get_slice_bytes_for_diagnostics(tcx) {
                        if is_str {
                            o.push_str(",\"v\":");
                            esc(&String::from_utf8_lossy(bytes), o);
                        } else {
                            o.push_str(",\"bytes\":[");
                            for (i, b) in bytes.iter().enumerate() {
                                if i > 0 {
                                    o.push(',');
                                }
                                let _ = write!(o, "{}", b);
                            }
                            o.push(']');
                        }
                    }
                }
            }
        }
        ConstValue::ZeroSized => {
            o.push_str(",\"zst\":true");
        }
        ConstValue::Indirect { alloc_id, offset } => {
            if let Some(mir::interpret::GlobalAlloc::Memory(alloc)) = tcx.try_get_global_alloc(alloc_id) {
                let a = alloc.inner();
                if a.provenance().ptrs().is_empty() && a.len() <= 4096 {
                    let bytes = a.inspect_with_uninit_and_ptr_outside_interpreter(
                        offset.bytes_usize()..a.len(),
                    );
                    o.push_str(",\"bytes\":[");
                    for (i, b) in bytes.iter().enumerate() {
                        if i > 0 {
                            o.push(',');
                        }
                        let _ = write!(o, "{}", b);
                    }
                    o.push(']');
                } else {
                    o.push_str(",\"indirect\":true");
                }
            }
        }
    }
}

// ------------------------------------------------------------------------------------------

struct Dump {
    out_dir: String,
    tag: String,
}

fn def_kind_str(k: DefKind) -> &'static str {
    match k {
        DefKind::Fn => "fn",
        DefKind::AssocFn => "fn",
        DefKind::Closure => "closure",
        DefKind::Const { .. } => "const",
        DefKind::AssocConst { .. } => "const",
        DefKind::Static { .. } => "static",
        DefKind::AnonConst => "anonconst",
        DefKind::InlineConst => "inlineconst",
        _ => "other",
    }
}

impl Callbacks for Dump {
    fn after_expansion<'tcx>(&mut self, _c: &Compiler, tcx: TyCtxt<'tcx>) -> Compilation {
        let krate = tcx.crate_name(rustc_hir::def_id::LOCAL_CRATE).to_string();
        let mut cx = Ctx { tcx, krate: krate.clone(), tys: Vec::new(), ty_ix: HashMap::new() };

        // pass 1: clone every promoted-MIR body before any later query can steal it
        let owners: Vec<LocalDefId> = tcx
            .hir_body_owners()
            .filter(|d| !matches!(tcx.def_kind(*d), DefKind::AnonConst))
            .collect();
        let mut cloned: Vec<(LocalDefId, Body<'tcx>, Vec<Body<'tcx>>)> = Vec::new();
        let mut ordered: Vec<LocalDefId> = owners.clone();
        // consts first: building a fn body const-evaluates the consts used in its patterns,
        // which steals their promoted MIR.
        ordered.sort_by_key(|d| {
            !matches!(
                tcx.def_kind(*d),
                DefKind::Const { .. }
                    | DefKind::AssocConst { .. }
                    | DefKind::Static { .. }
                    | DefKind::AnonConst
                    | DefKind::InlineConst
            )
        });
        for &def in ordered.iter() {
            let (b, p) = tcx.mir_promoted(def);
            if b.is_stolen() {
                let dk = tcx.def_kind(def);
                if matches!(dk, DefKind::Const { .. } | DefKind::AssocConst { .. } | DefKind::Static { .. } | DefKind::AnonConst | DefKind::InlineConst) {
                    let body = tcx.mir_for_ctfe(def).clone();
                    cloned.push((def, body, Vec::new()));
                } else {
                    eprintln!("factgen: stolen body {:?}", def);
                    std::process::exit(3);
                }
                continue;
            }
            let body = b.borrow().clone();
            let proms: Vec<Body<'tcx>> = if p.is_stolen() { Vec::new() } else { p.borrow().iter().cloned().collect() };
            cloned.push((def, body, proms));
        }

        let mut out = String::with_capacity(1 << 22);
        out.push_str("{\"crate\":");
        esc(&krate, &mut out);
        out.push_str(",\"tag\":");
        esc(&self.tag, &mut out);
        // cfg features
        out.push_str(",\"features\":[");
        {
            let mut feats: Vec<String> = Vec::new();
            for (k, v) in tcx.sess.config.iter() {
                if k.as_str() == "feature" {
                    if let Some(v) = v {
                        feats.push(v.to_string());
                    }
                }
            }
            feats.sort();
            for (i, f) in feats.iter().enumerate() {
                if i > 0 {
                    out.push(',');
                }
                esc(f, &mut out);
            }
        }
        out.push(']');

        // bodies
        out.push_str(",\"bodies\":[\n");
        let mut firstb = true;
        for (def, body, proms) in cloned.iter() {
            let did = def.to_def_id();
            let dk = tcx.def_kind(did);
            let mut kind = def_kind_str(dk);
            if dk == DefKind::Closure {
                if tcx.is_coroutine(did) {
                    kind = "coroutine";
                }
            }
            let path = cx.path(did);
            let parent = if matches!(dk, DefKind::Closure | DefKind::InlineConst | DefKind::AnonConst) {
                Some(cx.path(tcx.parent(did)))
            } else {
                None
            };
            let env = TypingEnv::post_analysis(tcx, did);
            let s = {
                let mut bcx = BodyCx { cx: &mut cx, body, def: did, env };
                let _ = bcx.def;
                bcx.dump(&path, kind, parent)
            };
            if !firstb {
                out.push_str(",\n");
            }
            firstb = false;
            out.push_str(&s);
            for (i, pb) in proms.iter().enumerate() {
                let ppath = format!("{}::{{promoted#{}}}", path, i);
                let s = {
                    let mut bcx = BodyCx { cx: &mut cx, body: pb, def: did, env };
                    bcx.dump(&ppath, "promoted", Some(path.clone()))
                };
                out.push_str(",\n");
                out.push_str(&s);
            }
        }
        out.push_str("\n]");

        // consts: evaluated values of simple named consts/statics
        out.push_str(",\"consts\":{");
        let mut firstc = true;
        for &def in owners.iter() {
            let did = def.to_def_id();
            let dk = tcx.def_kind(did);
            if !matches!(dk, DefKind::Const { .. } | DefKind::AssocConst { .. } | DefKind::Static { .. }) {
                continue;
            }
            let generics = tcx.generics_of(did);
            if generics.own_requires_monomorphization() || generics.parent_count > 0 && tcx.generics_of(tcx.parent(did)).requires_monomorphization(tcx) {
                continue;
            }
            let ty = tcx.type_of(did).instantiate_identity().skip_norm_wip();
            let mut o = String::new();
            let tid = cx.ty_id(ty);
            let _ = write!(o, "{{\"ty\":{}", tid);
            let r = if matches!(dk, DefKind::Static { .. }) {
                None
            } else {
                tcx.const_eval_poly(did).ok()
            };
            if let Some(v) = r {
                let env = TypingEnv::post_analysis(tcx, did);
                // for &T where T is plain data, dump the pointee bytes too
                write_value(tcx, env, v, ty, &mut o);
            }
            o.push('}');
            if !firstc {
                out.push(',');
            }
            firstc = false;
            esc(&cx.path(did), &mut out);
            out.push(':');
            out.push_str(&o);
        }
        out.push('}');

        // adts
        out.push_str(",\"adts\":{");
        let mut firsta = true;
        for id in tcx.hir_free_items() {
            let did = id.owner_id.to_def_id();
            let dk = tcx.def_kind(did);
            if !matches!(dk, DefKind::Struct | DefKind::Enum) {
                continue;
            }
            let adt = tcx.adt_def(did);
            if !firsta {
                out.push(',');
            }
            firsta = false;
            esc(&cx.path(did), &mut out);
            let _ = write!(out, ":{{\"kind\":\"{}\",\"variants\":[", if adt.is_enum() { "enum" } else { "struct" });
            let discrs: Vec<u128> = if adt.is_enum() {
                adt.discriminants(tcx).map(|(_, d)| d.val).collect()
            } else {
                vec![0]
            };
            for (i, v) in adt.variants().iter().enumerate() {
                if i > 0 {
                    out.push(',');
                }
                out.push_str("{\"name\":");
                esc(v.name.as_str(), &mut out);
                let _ = write!(out, ",\"discr\":{},\"fields\":[", discrs.get(i).copied().unwrap_or(0));
                for (j, f) in v.fields.iter().enumerate() {
                    if j > 0 {
                        out.push(',');
                    }
                    out.push_str("{\"n\":");
                    esc(f.name.as_str(), &mut out);
                    let fty = tcx.type_of(f.did).instantiate_identity().skip_norm_wip();
                    out.push_str(",\"ty\":");
                    esc(&with_no_trimmed_paths!(fty.to_string()), &mut out);
                    let _ = write!(out, ",\"vis\":{}", jstr(&format!("{:?}", f.vis).chars().take(40).collect::<String>()));
                    out.push('}');
                }
                out.push_str("]}");
            }
            out.push_str("]}");
        }
        out.push('}');

        // impls
        out.push_str(",\"impls\":[");
        let mut firsti = true;
        for id in tcx.hir_free_items() {
            let did = id.owner_id.to_def_id();
            if !matches!(tcx.def_kind(did), DefKind::Impl { .. }) {
                continue;
            }
            if !firsti {
                out.push(',');
            }
            firsti = false;
            let st = tcx.type_of(did).instantiate_identity().skip_norm_wip();
            out.push_str("{\"self\":");
            esc(&with_no_trimmed_paths!(st.to_string()), &mut out);
            if let Some(tr) = tcx.impl_opt_trait_ref(did) {
                let tr = tr.instantiate_identity().skip_norm_wip();
                out.push_str(",\"trait\":");
                esc(&cx.path(tr.def_id), &mut out);
                out.push_str(",\"trait_ref\":");
                esc(&with_no_trimmed_paths!(tr.to_string()), &mut out);
            }
            let g = tcx.generics_of(did);
            out.push_str(",\"generics\":[");
            for (i, p) in g.own_params.iter().enumerate() {
                if i > 0 {
                    out.push(',');
                }
                esc(p.name.as_str(), &mut out);
            }
            out.push_str("],\"items\":{");
            for (i, it) in tcx.associated_items(did).in_definition_order().enumerate() {
                if i > 0 {
                    out.push(',');
                }
                esc(it.name().as_str(), &mut out);
                out.push(':');
                esc(&cx.path(it.def_id), &mut out);
            }
            out.push_str("}}");
        }
        out.push(']');

        // sigs
        out.push_str(",\"sigs\":{");
        let mut firsts = true;
        for &def in owners.iter() {
            let did = def.to_def_id();
            let dk = tcx.def_kind(did);
            if !matches!(dk, DefKind::Fn | DefKind::AssocFn) {
                continue;
            }
            let sig = tcx.fn_sig(did).instantiate_identity().skip_norm_wip().skip_binder();
            if !firsts {
                out.push(',');
            }
            firsts = false;
            esc(&cx.path(did), &mut out);
            out.push_str(":{\"inputs\":[");
            for (i, t) in sig.inputs().iter().enumerate() {
                if i > 0 {
                    out.push(',');
                }
                esc(&with_no_trimmed_paths!(t.to_string()), &mut out);
            }
            out.push_str("],\"output\":");
            esc(&with_no_trimmed_paths!(sig.output().to_string()), &mut out);
            let vis = tcx.visibility(did);
            let vs = match vis {
                ty::Visibility::Public => "pub".to_string(),
                ty::Visibility::Restricted(m) => {
                    if m.is_crate_root() {
                        "crate".to_string()
                    } else {
                        format!("in:{}", with_no_trimmed_paths!(tcx.def_path_str(m)))
                    }
                }
            };
            out.push_str(",\"vis\":");
            esc(&vs, &mut out);
            let g = tcx.generics_of(did);
            out.push_str(",\"generics\":[");
            for (i, p) in g.own_params.iter().enumerate() {
                if i > 0 {
                    out.push(',');
                }
                esc(p.name.as_str(), &mut out);
            }
            out.push_str("]}");
        }
        out.push('}');

        // type table
        out.push_str(",\"tys\":[");
        for (i, t) in cx.tys.iter().enumerate() {
            if i > 0 {
                out.push(',');
            }
            esc(t, &mut out);
        }
        out.push_str("]}\n");

        let fname = format!("{}/{}-{}.json", self.out_dir, krate, self.tag);
        let tmp = format!("{}.tmp{}", fname, std::process::id());
        std::fs::write(&tmp, out.as_bytes()).expect("factgen: cannot write facts");
        std::fs::rename(&tmp, &fname).expect("factgen: cannot rename facts");
        let _ = Symbol::intern("x");
        Compilation::Continue
    }
}

struct Nop;
impl Callbacks for Nop {}

fn main() {
    let mut args: Vec<String> = std::env::args().collect();
    // wrapper mode: argv[1] is the path of the real rustc
    if args.len() > 1 && (args[1].ends_with("rustc") || args[1].contains("/rustc")) {
        args.remove(1);
    }
    let out_dir = std::env::var("FACTGEN_OUT").ok();
    let crate_name = args
        .iter()
        .position(|a| a == "--crate-name")
        .and_then(|i| args.get(i + 1))
        .cloned()
        .unwrap_or_default();
    let is_build_script = crate_name.starts_with("build_script_");
    let is_proc_macro = args.windows(2).any(|w| w[0] == "--crate-type" && w[1] == "proc-macro");
    let is_test = args.iter().any(|a| a == "--test");
    let only: Option<Vec<String>> = std::env::var("FACTGEN_ONLY")
        .ok()
        .map(|s| s.split(',').map(|x| x.trim().replace('-', "_")).filter(|x| !x.is_empty()).collect());
    let wanted = match &only {
        Some(v) => v.iter().any(|c| *c == crate_name),
        None => true,
    };
    let tag = args
        .iter()
        .find_map(|a| a.strip_prefix("metadata=").map(|s| s.to_string()))
        .or_else(|| {
            args.iter()
                .position(|a| a == "-C")
                .and_then(|_| None)
        })
        .unwrap_or_else(|| {
            // `-C metadata=xxx` is passed as two args "-C" "metadata=xxx" — handled above; else hash args
            let mut h: u64 = 1469598103934665603;
            for a in args.iter() {
                for b in a.bytes() {
                    h ^= b as u64;
                    h = h.wrapping_mul(1099511628211);
                }
            }
            format!("{:016x}", h)
        });
    let is_print = args.iter().any(|a| a.starts_with("--print") || a == "-vV" || a == "--version");
    let code = rustc_driver::catch_with_exit_code(|| {
        if let (Some(dir), false, false, false, true, false) =
            (out_dir.clone(), is_build_script, is_proc_macro, is_test, wanted, is_print || crate_name.is_empty())
        {
            let mut d = Dump { out_dir: dir, tag: tag.clone() };
            rustc_driver::run_compiler(&args, &mut d)
        } else {
            rustc_driver::run_compiler(&args, &mut Nop)
        }
    });
    std::process::exit(if code == std::process::ExitCode::SUCCESS { 0 } else { 1 });
}
