#!/usr/bin/env python3
"""extract facts for /repo + patch (scratch copy, removed afterwards) and print the fact directory (kept in the cache)
usage: patchfacts.py <patch.diff>"""
import sys, os, subprocess, tempfile, shutil
HERE = os.path.dirname(os.path.abspath(__file__)); VERIF = os.path.dirname(HERE)
sys.path.insert(0, os.path.join(VERIF, 'rules'))
import extract
d = tempfile.mkdtemp(prefix='vp_pf_')
try:
    subprocess.check_call(['rsync', '-a', '--exclude', '/target', '--exclude', '/.git', '--exclude', '/interop/bin', '/repo/', d + '/'])
    r = subprocess.run(['patch', '-p1', '-s', '-i', os.path.abspath(sys.argv[1])], cwd=d, stdout=subprocess.PIPE, stderr=subprocess.STDOUT, text=True)
    if r.returncode != 0:
        print('PATCH FAILED', r.stdout[-500:]); sys.exit(2)
    fd, dig, secs = extract.ensure(d, VERIF, 'full', None)
    print(fd)
finally:
    shutil.rmtree(d, ignore_errors=True)
