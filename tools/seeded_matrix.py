#!/usr/bin/env python3
"""run every kept seed (seeded/<id>/patch.diff) against its property's quick check on a scratch copy;
record the rule keys that fired in seeded/<id>/meta.json (detected_by) and write seeded/RESULTS.md"""
import os, sys, json, subprocess, tempfile, shutil, re
HERE = os.path.dirname(os.path.abspath(__file__)); VERIF = os.path.dirname(HERE)
sd = os.path.join(VERIF, 'seeded')
rows = []
# optional: seeded_matrix.py <prefix>  re-runs only the seeds whose id starts with <prefix>; the other rows are kept from RESULTS.md
PREFIX = sys.argv[1] if len(sys.argv) > 1 else ''
old_rows = {}
if PREFIX and os.path.exists(os.path.join(sd, 'RESULTS.md')):
    for line in open(os.path.join(sd, 'RESULTS.md')):
        cells = [c.strip() for c in line.strip().strip('|').split(' | ')]
        if len(cells) >= 5 and cells[0] not in ('seed', '---') and not cells[0].startswith('-'):
            old_rows[cells[0]] = tuple(cells[:4]) + (' | '.join(cells[4:]),)
for d in sorted(os.listdir(sd)):
    mp = os.path.join(sd, d, 'meta.json')
    if not os.path.exists(mp):
        continue
    if PREFIX and not d.startswith(PREFIX):
        if d in old_rows:
            rows.append(old_rows[d])
        continue
    meta = json.load(open(mp))
    prop = meta['property']
    tmp = tempfile.mkdtemp(prefix='vp_seedm_')
    try:
        subprocess.check_call(['rsync', '-a', '--exclude', '/target', '--exclude', '/.git', '--exclude', '/interop/bin', '/repo/', tmp + '/'])
        r = subprocess.run(['patch', '-p1', '-s', '-i', os.path.join(sd, d, 'patch.diff')], cwd=tmp, stdout=subprocess.PIPE, stderr=subprocess.STDOUT, text=True)
        if r.returncode != 0:
            meta['detected_by'] = None
            meta['detection_note'] = 'patch no longer applies to the current tree'
            rows.append((d, prop, 'n/a', 'patch no longer applies', ' '.join(str(meta.get('needs', '')).replace('|', '/').split())[:200]))
        else:
            r = subprocess.run([os.path.join(VERIF, 'check'), prop, '--no-evidence', '--repo', tmp], cwd=VERIF, stdout=subprocess.PIPE, stderr=subprocess.STDOUT, text=True, env=dict(os.environ, VERIF_NO_SELFTEST='1'))
            keys = re.findall(r'\[(?:violated|UNRECOGNISED|ANCHOR-MISSING|BELOW-FLOOR)\]\s+(\S+)', r.stdout)
            meta['detected_by'] = sorted(set(keys))
            meta['check_exit'] = r.returncode
            rows.append((d, prop, 'caught' if r.returncode == 1 and keys else 'MISSED', ', '.join(sorted(set(keys))[:4]), ' '.join(str(meta.get('needs', '')).replace('|', '/').split())[:200]))
        json.dump(meta, open(mp, 'w'), indent=1)
    finally:
        shutil.rmtree(tmp, ignore_errors=True)
with open(os.path.join(sd, 'RESULTS.md'), 'w') as fh:
    fh.write('# Seeded changes vs. checks (written by tools/seeded_matrix.py)\n\n| seed | property | result | rule instances that fired | needs, to manifest |\n|---|---|---|---|---|\n')
    for r in rows:
        fh.write('| %s | %s | %s | %s | %s |\n' % r)
print('\n'.join('%s %s %s %s' % r[:4] for r in rows))
