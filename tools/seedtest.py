#!/usr/bin/env python3
"""run a property's check against a scratch copy of /repo with a seeded patch applied.
usage: seedtest.py <patch.diff> <Cxx> [<Cyy> ...]"""
import sys, os, subprocess, tempfile, shutil
HERE = os.path.dirname(os.path.abspath(__file__)); VERIF = os.path.dirname(HERE)
patch = os.path.abspath(sys.argv[1]); props = sys.argv[2:]
d = tempfile.mkdtemp(prefix='vp_seed_')
try:
    subprocess.check_call(['rsync', '-a', '--exclude', '/target', '--exclude', '/.git', '--exclude', '/interop/bin', '/repo/', d + '/'])
    r = subprocess.run(['patch', '-p1', '-s', '-i', patch], cwd=d, stdout=subprocess.PIPE, stderr=subprocess.STDOUT, text=True)
    if r.returncode != 0:
        print('PATCH FAILED', r.stdout[-500:]); sys.exit(2)
    for p in props:
        r = subprocess.run([os.path.join(VERIF, 'check'), p, '--no-evidence', '--repo', d], cwd=VERIF, stdout=subprocess.PIPE, stderr=subprocess.STDOUT, text=True)
        print('== %s rc=%d' % (p, r.returncode))
        print('\n'.join(l[:260] for l in r.stdout.splitlines()[-14:]))
finally:
    shutil.rmtree(d, ignore_errors=True)
