#!/usr/bin/env python3
"""(re)generate spec/known_fns.json: the function items that exist in the workspace crates of the pinned tree.
It is *not* a rule: it only tells mirlib which crate-local functions are new helpers (introduced by a later edit) and are
therefore spliced into their callers before the rules look at a body, so that extracting a helper does not hide code from a rule."""
import sys, os, json
HERE = os.path.dirname(os.path.abspath(__file__)); VERIF = os.path.dirname(HERE)
sys.path.insert(0, os.path.join(VERIF, 'rules'))
import extract, mirlib
CRATES = ['tonic', 'tonic_web', 'tonic_health', 'tonic_reflection', 'tonic_types', 'tonic_build']
out = {c: set() for c in CRATES}
sigs = {c: {} for c in CRATES}
fps = {c: {} for c in CRATES}
cfgs = [('full', None), ('plain', None)] + list(extract.matrix_configs().items())
for name, cfg in cfgs:
    d, dig, secs = extract.ensure('/repo', VERIF, name, cfg)
    for c, crs in mirlib.load_dir(d, set(CRATES), raw=True).items():
        for cr in crs:
            out[c].update(b['path'] for b in cr['bodies'] if b['kind'] == 'fn')
            for b in cr['bodies']:
                if b['kind'] == 'fn':
                    tys = cr['tys']
                    sigs[c][b['path']] = [tys[b['locals'][0]], sorted(tys[b['locals'][i]] for i in range(1, b['argc'] + 1))]
                    fps[c][b['path']] = sorted(mirlib.fingerprint(b))
    print(name, {c: len(v) for c, v in out.items()})
with open(os.path.join(VERIF, 'spec', 'known_fns.json'), 'w') as fh:
    json.dump({c: sorted(v) for c, v in out.items()}, fh, indent=0)
with open(os.path.join(VERIF, 'spec', 'known_sigs.json'), 'w') as fh:
    json.dump(sigs, fh, indent=0)
with open(os.path.join(VERIF, 'spec', 'known_fps.json'), 'w') as fh:
    json.dump(fps, fh, indent=0)
