#!/bin/sh
# run every property's check against a scratch copy with a behaviour-preserving patch: all must stay silent
# usage: refactest.sh <patch.diff> [props...]
cd "$(dirname "$0")/.."
p=$1; shift
props=${*:-C01 C02 C03 C04 C05 C06 C07 C08 C09 C10 C11 C12 C13 C14 C15 C16 C17 C18 C19 C20}
python3 tools/seedtest.py "$p" $props 2>&1 | grep -E "^== C.. rc=[^0]|PATCH FAILED|\[(violated|UNRECOGNISED|ANCHOR-MISSING|BELOW-FLOOR)\]" | cut -c1-330
echo "done $p"
