#!/usr/bin/env python3
"""dev tool: pretty-print bodies from a facts dir.  usage: mirdump.py <factsdir> <crate> <path-substr> [--full]"""
import sys, os
sys.path.insert(0, os.path.join(os.path.dirname(__file__), '..', 'rules'))
import mirlib
from mirlib import place_str


def op(b, o):
    if 'cp' in o:
        return place_str(o['cp'])
    if 'mv' in o:
        return 'move ' + place_str(o['mv'])
    if 'k' in o:
        c = o['k']
        if 'fn' in c:
            return 'fn ' + mirlib.short(c['fn'])
        if 'v' in c:
            return 'const %r' % (c['v'],) + ((':' + c['variant']) if 'variant' in c else '')
        if 'bytes' in c:
            return 'const b%r' % bytes(c['bytes'])
        if 'def' in c:
            return 'const ' + c['def'] + ('{promoted#%d}' % c['promoted'] if 'promoted' in c else '')
        return 'const <%s>' % b.tystr(c['ty'])
    return '?'


def rv(b, r):
    if 'use' in r: return op(b, r['use'])
    if 'ref' in r: return ('&mut ' if r['mut'] else '&') + place_str(r['ref'])
    if 'rawptr' in r: return '&raw ' + place_str(r['rawptr'])
    if 'cast' in r: return '%s as %s (%s)' % (op(b, r['op']), b.tystr(r['ty']), r['cast'])
    if 'bin' in r: return '%s(%s, %s)' % (r['bin'], op(b, r['a']), op(b, r['b']))
    if 'un' in r: return '%s(%s)' % (r['un'], op(b, r['a']))
    if 'discr' in r: return 'discriminant(%s)' % place_str(r['discr'])
    if 'agg' in r:
        a = r['agg']
        nm = a.get('adt', a.get('def', a['kind']))
        if a.get('variant'): nm += '::' + a['variant']
        return '%s {%s}' % (nm, ', '.join(op(b, x) for x in r['ops']))
    if 'repeat' in r: return '[%s; %s]' % (op(b, r['repeat']), r['n'])
    return str(r)


def dump(b, full=False):
    print('=' * 100)
    print('%s  [%s]  %s:%s  argc=%d' % (b.path, b.kind, b.file, b.line, b.argc))
    print('  names:', ', '.join('%s=%s' % (n['n'], place_str(n['p'])) for n in b.names_raw))
    if full:
        for i, t in enumerate(b.local_tys):
            print('  let _%d: %s' % (i, b.tystr(t)))
    live = b.live_blocks()
    for i, blk in enumerate(b.blocks):
        if blk.get('cleanup') or i not in live:
            continue
        print(' bb%d:' % i)
        for st in blk['stmts']:
            mac = (' @' + st['mac'][0]) if st.get('mac') else ''
            if 'p' in st:
                print('    %s = %s    // %s%s' % (place_str(st['p']), rv(b, st['rv']), st.get('ln'), mac))
            else:
                print('    discriminant(%s) = %s' % (place_str(st['setdiscr']), st['variant']))
        t = blk['term']
        k = t['k']
        mac = (' @' + ','.join(t['mac'][:2])) if t.get('mac') else ''
        if k == 'call':
            fn = t.get('fn') or ('(' + op(b, t['fop']) + ')')
            extra = ''
            if t.get('resolved'): extra = '  => ' + t['resolved']
            print('    %s = %s(%s) -> bb%s   // %s%s%s' % (place_str(t['dest']), fn, ', '.join(op(b, a) for a in t['args']), t['t'], t.get('ln'), mac, extra))
        elif k == 'switch':
            print('    switch %s [%s, else->bb%d]   // %s%s' % (op(b, t['on']), ', '.join('%d->bb%d' % (v, tb) for v, tb in t['arms']), t['else'], t.get('ln'), mac))
        elif k == 'goto':
            print('    goto bb%d' % t['t'])
        elif k == 'drop':
            print('    drop(%s) -> bb%d' % (place_str(t['p']), t['t']))
        elif k == 'assert':
            print('    assert(%s == %s, %s) -> bb%d  // %s' % (op(b, t['cond']), t['expected'], t['msg'], t['t'], t.get('ln')))
        elif k == 'yield':
            print('    %s = yield(%s) -> bb%d  // %s' % (place_str(t['resume_arg']), op(b, t['v']), t['t'], t.get('ln')))
        else:
            print('    %s   // %s' % (k, t.get('ln')))


if __name__ == '__main__':
    d, crate, sub = sys.argv[1:4]
    full = '--full' in sys.argv
    cs = mirlib.load_dir(d, {crate})
    for c in cs[crate][:1]:
        for b in c.bodies:
            if sub in b.path and b.kind != 'promoted' and '__CALLSITE' not in b.path:
                dump(b, full)
