#!/usr/bin/env python3
"""regenerate /verif/MANIFEST.json from the table below (only properties with a rules/Cxx.py are claimed)"""
import json, os

HERE = os.path.dirname(os.path.abspath(__file__))
VERIF = os.path.dirname(HERE)

CLAIMS = {
    'C01': ('writer/reader frame-layout agreement with the spec layout, codec pairing per encoding, scratch-buffer hygiene, whole-frame yields, length-bounded views and decoder phase transitions — decided on every path / table row of the MIR. Byte equality of a round trip over all inputs and chunkings is NOT decided.', 'MIR table extraction + dominance/must-pass rules (custom rustc_private driver)'),
    'C02': ('status-propagation discipline in tonic itself: no handler/decoder error is dropped on the server, single-trailers typestate of the encoder, clean end-of-stream on the client only behind the trailers/HTTP-status gate, the Trailers-Only status read unconditionally, codec pairing of the compressed path, the grpc-web trailer writer keeps one line per value. End-to-end equality under arbitrary HTTP/2 fragmentation (hyper/h2) is NOT decided.', 'MIR data-origin + typestate rules'),
    'C03': ('request pseudo-header/header constants, response content-type, prefix layout, flag in {0,1}, announced-encoding table, exactly-one-trailers typestate, client emits no trailers, the fallback of the router answers an unknown path as a gRPC response. Validity of compressed payload bytes is NOT decided.', 'MIR constant/table extraction + dominance rules'),
    'C04': ('the four status-code tables, the HTTP-status and HTTP/2-reason tables equal the spec tables row by row (exhaustive over rows); percent-encode set and base64 engines by constant evaluation; every potential panic site reachable from the header reader is enumerated and must be discharged; the Trailers-Only status is read unconditionally and nothing is read from the body after the trailers. Equality for all Unicode messages is NOT decided (library behaviour).', 'MIR decision-table extraction vs spec tables; panic-site reachability'),
    'C05': ('every header-token -> encoding arm is guarded by the matching enabled-set test; refusal path builds UNIMPLEMENTED + accept list; send/accept field plumbing on all handlers and the client; flag-1-without-encoding -> INTERNAL; who-may-write: grpc-encoding / grpc-accept-encoding are written only at the three negotiation sites of the library crates of the workspace.', 'MIR decision rows + edge guards + field-origin plumbing + who-may-write over all library crates'),
    'C06': ('limit comparison operator/operands, comparison dominates reserve and the prefix write, status codes, default constants, limit plumbing, no error return while encoded frames are still buffered, the limit is used for the wire length only (not handed to the decompressor), is_end_stream() reports the final-outcome flag. The numeric allocation bound itself is NOT measured.', 'MIR accept/reject-edge + path-sensitive reachability + operand-origin rules'),
    'C07': ('error-latch typestate of the decoder, no double report, panic-reachability of the receive path, header reads dominated by the length test, allocation sizes on the receive path computed from the frame length and settings only. Behaviour of prost/flate2/zstd on garbage is assumed from their signatures.', 'MIR typestate + panic-site reachability'),
    'C08': ('reserved-name table, who-may-call for unsanitised conversions, typed categorisation in all iterators and keyed accessors, type-parameter preservation in the entry API, base64 engines; 15 compile-fail witnesses (each with a compiling twin) that the public typed API cannot present a binary entry as ASCII or vice versa. The channel overwrites user-agent unconditionally (no other writer). Order/value preservation inside http::HeaderMap is NOT decided.', 'MIR who-may-call + signature/type-level rules + rustdoc compile_fail witnesses'),
    'C09': ('writer/reader unit tables are inverse pairs of the spec table, 8-digit guard, truncating conversions, min rule, inner-before-sleep poll order, TimeoutExpired -> CANCELLED mapping, layer placement, the timer is created at the call (not at the first poll). Elapsed-time behaviour of the tokio timer is NOT decided.', 'MIR table extraction + poll-order dominance'),
    'C10': ('route pattern constants, UNIMPLEMENTED fallback, every generated dispatcher in the workspace matches the whole path by equality with an UNIMPLEMENTED default, NAME forwarding through every wrapper. axum matcher semantics are NOT decided.', 'MIR table extraction over all generated services'),
    'C11': ('generator templates share one path formatter; kind table; every generated instance in the workspace: client paths = server arms = NAME prefix, kinds agree; committed generated code (method arms, client methods and the fallback arm) is shape-identical to freshly generated code. Byte-exactness of committed files is NOT decided (would need running the generator).', 'MIR sibling agreement over generated code + template token reconstruction'),
    'C12': ('URI/method/version captured from and restored to the same request, SanitizeHeaders::No, inner service called only on the Ok arm, reject arm yields into_http + empty body whose status headers are written whole; Request::into_http(No) hands the metadata on untouched; compile-fail witnesses that an interceptor is a function of Request<()> (cannot touch the body).', 'MIR data-origin + edge-guard rules + rustdoc compile_fail witnesses'),
    'C13': ('ordering/pairing in the serve loop and connection task (signal -> send -> drop own receiver -> await closed; graceful_shutdown not abort; nothing accepted after send). Behaviour under every signal placement relies on hyper/tokio and is NOT decided.', 'MIR must-pass-through / reachability on pre-transform coroutine CFGs'),
    'C14': ('typestate proof over Reconnect::poll_ready/call (Ready(Ok) => Connected or error pending; error handed off by take; failure resets to Idle; eager first failure returned), ConnectError -> UNAVAILABLE; every tonic layer of the client stack forwards each call to its inner service; the discovery stream of the balanced channel forwards every change. tower Buffer / hyper lifetimes are NOT decided.', 'MIR typestate interpretation + must-forward rule over the client stack layers'),
    'C15': ('TLS wiring: https => TLS-or-error (no plaintext path), roots only from configured sources, no verifier override anywhere, domain flow, ALPN pushed and checked unless assume_http2, every connector built for the URI of this call (none cached across endpoints), client-auth verifier shape, TLS accept precedes new_tls_io. rustls verification itself is NOT decided.', 'MIR edge-guard / must-pass / who-may-call rules under tls-ring'),
    'C16': ('dispatch table (POST/405/400/pass-through), content-type tables, accept-vs-content-type encoding flow, trailers-frame layout (0x80, BE length, every entry), leftover-at-EOF => error. Byte equality for all chunkings is NOT decided.', 'MIR decision rows + constant extraction'),
    'C17': ('reader/writer trailer grammar agreement (split at first colon only, multi-valued append), shared frame-flag constants, no re-poll after inner end, clean end only with empty residue.', 'MIR call-identity + loop reachability rules'),
    'C18': ('all map access under the lock, update = send on the stored sender, check = current value of stored receiver, watch = current-value-first stream of a clone, clear = remove, "" -> SERVING default, NOT_FOUND on both paths. Interleavings (tokio watch/RwLock semantics) are NOT decided.', 'MIR origin + call-identity rules'),
    'C19': ('declaration-kind coverage table of the indexer, parent-qualified name construction, duplicate-file skip, NOT_FOUND, service-list source, v1 ≅ v1alpha isomorphism, every Ok answer of a lookup is the encoded descriptor, every answer of a stream is delivered with a waiting send.', 'MIR coverage table + sibling shape isomorphism + must-pass (every Ok behind the encoder) / call-identity rules'),
    'C20': ('10 kinds x 6 tables agreement, field-by-field From-pair agreement, inner status = outer code/message, decode side panic-free. prost round trip of message bodies is NOT decided.', 'MIR table agreement + field-origin rules'),
}


def main():
    checks = []
    na = []
    for pid in sorted(CLAIMS):
        text, tech = CLAIMS[pid]
        if not os.path.exists(os.path.join(VERIF, 'rules', pid + '.py')):
            na.append({'property_id': pid, 'reason': 'check not built yet (static rules planned in DESIGN.md §3 %s); not claimed until the rule module exists' % pid})
            continue
        checks.append({
            'property_id': pid,
            'quick_cmd': './check %s --tier quick' % pid,
            'thorough_cmd': './check %s --tier thorough' % pid,
            'evidence_file': 'evidence/%s.json' % pid,
            'replay_cmd_template': './check %s --replay {path}' % pid,
            'engine': 'factgen+mirlib',
            'level_claimed': {
                'category': 'other',
                'text': 'Static analysis (no execution): decides structural necessary conditions of the property on every path / table row / call site of the type-checked MIR of the current tree: ' + text,
                'design_ref': 'DESIGN.md §3 ' + pid,
            },
            'level_note': 'Trusted: rustc nightly MIR construction and trait resolution, engine/factgen serialisation, rules/mirlib.py; third-party crates assumed to behave as documented. The behavioural property over all inputs/schedules is not established; only the named clauses are.',
            'technique': 'static analysis: ' + tech,
        })
    m = {
        'version': 1,
        'setup_cmd': './setup.sh',
        'hooks': {
            'guard': 'none (static analysis needs no instrumentation)',
            'enable': 'no hooks: checks read /repo as is via a RUSTC_WORKSPACE_WRAPPER driver under cargo +nightly check',
            'baseline_off_cmd': 'cd /repo && cargo test --workspace --no-fail-fast --offline',
            'source_commits': [],
            'add_only': True,
        },
        'engines': [
            {'name': 'factgen', 'path': 'engine/factgen', 'serves_properties': sorted(c['property_id'] for c in checks),
             'kind_free_text': 'rustc_private driver (nightly) dumping promoted MIR, constants, ADTs, impls and signatures of every workspace crate as JSON facts'},
            {'name': 'mirlib', 'path': 'rules/mirlib.py', 'serves_properties': sorted(c['property_id'] for c in checks),
             'kind_free_text': 'CFG/dominator/origin/decision-table/typestate analyses over the facts; one rule module per property'},
        ],
        'checks': checks,
        'not_applicable': na,
        'notes': 'All checks are static (family: static analysis). Each decides named structural clauses of its property (see DESIGN.md §3) and states in level_claimed.text what is not decided. Known genuine defects are listed in known_findings.json.',
    }
    with open(os.path.join(VERIF, 'MANIFEST.json'), 'w') as fh:
        json.dump(m, fh, indent=1)
    print('claimed:', [c['property_id'] for c in checks])


if __name__ == '__main__':
    main()
