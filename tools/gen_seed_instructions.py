#!/usr/bin/env python3
"""Write the instruction file handed to an independent sub-agent that is asked for a property-breaking change.
The sub-agent sees the property's title/statement/quantifier only - nothing from /verif.
usage: gen_seed_instructions.py <round-tag> <worktree-prefix> <out-prefix> <instr-dir>
   e.g. gen_seed_instructions.py FIFTH /tmp/wt10_ /tmp/seeded5/ /tmp/p10
"""
import json, os, sys

FLAVOUR = {
 'FIFTH': (
  "This is a FIFTH round: obvious single-site bugs, bugs at constructors/setters/conversions/second callers, subtle one-token regressions and "
  "bugs hidden inside refactorings of the central function have all been tried (four rounds, about eight changes for this property already). "
  "Find something DIFFERENT in kind. Directions that have not been exhausted:\n"
  " * TWO COOPERATING SITES in different functions, files or crates of the workspace that each look correct on their own (one side's contract "
  "shifts a little - what a helper returns on the edge, which side strips/adds a byte, who resets a flag, who owns a default - and the other side "
  "still assumes the old contract);\n"
  " * a MULTI-STEP SEQUENCE: state that survives from one call/message/poll/connection to the next (a flag, buffer, cached value, counter or "
  "option that is not reset, is reset too early, or is carried into a clone), so the first use is right and a later one is wrong;\n"
  " * a particular INTERLEAVING or FAULT POINT: what happens when a poll returns Pending between two steps, when an error arrives after partial "
  "progress, when the peer goes away mid-way, when two events are ready in the same poll;\n"
  " * the LESS-TRAVELLED implementation of the same behaviour: another crate of the workspace (tonic-web, tonic-health, tonic-reflection, "
  "tonic-types, tonic-prost, tonic-build / tonic-prost-build code generation and what the generated code does, the transport layers under "
  "tonic/src/transport, the service/router/layer adapters), a feature-gated variant, a rarely used constructor, builder option or trait impl "
  "(Clone, Default, From, Drop, size_hint, is_end_stream, poll_ready, poll_trailers/trailers frames);\n"
  " * an UNUSUAL BUT LEGAL INPUT: empty message, zero-length frame, maximum/minimum sizes, mixed-case or repeated headers, binary metadata, "
  "a non-ASCII or percent-encoded text, a path/authority/scheme corner case, an already-expired or huge deadline, a zero or one-element collection.\n"
  "The change should be small to medium (a few lines up to ~60), plausible as a well-meant optimisation, clean-up or bug fix, and must NOT be "
  "exposed by ordinary use (a plain unary call with default settings must keep working). "),
}

TEMPLATE = """You are helping test a verification tool. Your job: introduce a realistic BUG into a Rust code base (hyperium/tonic, a gRPC framework) that breaks one stated behavioural property, while the code still compiles and the project's existing tests still pass.

Work ONLY inside the git worktree directory {wt} (a checkout of the repository). Do not read or write anything under /verif or /repo. Everything is offline: use `cargo ... --offline`; set CARGO_TARGET_DIR={wt}/target. Do not run `cargo test --workspace` (too slow); run the tests of the crates you touched, e.g. `cargo test -p tonic --offline --lib`, and any obviously related integration test crate (e.g. `cargo test -p integration-tests --offline`, `-p compression`, `-p test_web`, `-p tonic-web`, `-p tonic-health`, `-p tonic-types`; tonic-reflection needs `--all-features --features tonic/router`), to confirm they still pass with your change (one test, integration-tests::connection::connect_handles_tls, fails even without changes; ignore it). Other agents are building at the same time: use `-j 4` for cargo.

The property to break is:

{title}

{statement}

(Quantified over: {quant})

{flavour}Read the code paths involved before choosing; prefer a bug that a reviewer could plausibly approve.

Produce TWO different, independent bug variants (each as its own patch against a clean checkout), of two different kinds from the list above. Requirements for each variant:
 * a plausible source change to library code (not tests); no new public API; no artificial trigger code;
 * still compiles and the existing tests of the touched crates still pass;
 * violates the property above, but only under specific circumstances, not in ordinary use;
 * a demonstration: a new test (or small example program) that FAILS with your change applied and PASSES on the clean checkout. Run it both ways and record the outputs.

Deliver, for variant n in {{1,2}}, a directory {out}{cid}_n/ containing:
   patch.diff   - `git diff` of the library change only (applies with `git apply` to a clean checkout)
   demo.diff    - `git diff` adding only the demonstration test/program (applies independently of patch.diff)
   README.md    - what the bug is, which part of the property it breaks, what is needed for it to manifest, the exact commands you ran (the demo command with and without the patch; the existing tests with the patch) and their outcomes. Put the demo command on a line of its own starting with `DEMO: ` and the existing-tests command(s) on a line starting with `TESTS: `.
When finished, leave the worktree clean (`git checkout -- . && git clean -fdq`) and delete {wt}/target. Reply with a short summary of the two variants.

Never use `git stash`. Do not create commits.
"""

def main():
    tag, wtp, outp, idir = sys.argv[1:5]
    here = os.path.dirname(os.path.dirname(os.path.abspath(__file__)))
    for line in open(os.path.join(here, 'properties.jsonl')):
        p = json.loads(line)
        cid = p['id']
        s = TEMPLATE.format(wt=wtp + cid, title=p['title'], statement=p['statement'], quant=p['quantifier']['text'],
                            flavour=FLAVOUR[tag], out=outp, cid=cid)
        os.makedirs(os.path.join(idir, cid), exist_ok=True)
        open(os.path.join(idir, cid, 'instructions.txt'), 'w').write(s)
    print('wrote', idir)

if __name__ == '__main__':
    main()
