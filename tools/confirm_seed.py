#!/usr/bin/env python3
"""Confirm a seeded change: demo passes on the clean tree, fails with the patch; existing tests pass with the patch.
usage: confirm_seed.py <seed_dir> <prop> <out_id> --demo "<cmd>" --tests "<cmd>" [--needs "<text>"]
Works in the scratch worktree /tmp/wt_confirm (created from /repo HEAD when absent); copies the kept case to /verif/seeded/<out_id>/."""
import sys, os, subprocess, json, shutil, argparse, time
ap = argparse.ArgumentParser()
ap.add_argument('seed'); ap.add_argument('prop'); ap.add_argument('out')
ap.add_argument('--demo', required=True); ap.add_argument('--tests', required=True); ap.add_argument('--needs', default='')
a = ap.parse_args()
WT = os.environ.get('VP_CONFIRM_WT', '/tmp/wt_confirm')
VERIF = os.path.dirname(os.path.dirname(os.path.abspath(__file__)))
env = dict(os.environ, CARGO_TARGET_DIR=WT + '/target', CARGO_NET_OFFLINE='true')

def sh(cmd, check=False):
    r = subprocess.run(cmd, shell=True, cwd=WT, env=env, stdout=subprocess.PIPE, stderr=subprocess.STDOUT, text=True)
    return r.returncode, r.stdout

if not os.path.isdir(WT):
    subprocess.check_call(['git', '-C', '/repo', 'worktree', 'add', '-q', '--detach', WT, 'HEAD'])
head = subprocess.check_output(['git', '-C', '/repo', 'rev-parse', 'HEAD'], text=True).strip()
sh('git checkout -q --detach %s && git checkout -q -- . && git clean -fdq -e target' % head)
seed = os.path.abspath(a.seed)
res = {'property': a.prop, 'seed': a.out, 'repo_head': head, 'needs': a.needs, 'ran': []}
def step(name, cmd, expect_ok):
    t0 = time.time()
    rc, out = sh(cmd)
    ok = (rc == 0) == expect_ok
    tail = [l for l in out.splitlines() if 'test result' in l or 'FAILED' in l or 'panicked' in l or 'error' in l.lower()][-8:]
    res['ran'].append({'step': name, 'cmd': cmd, 'rc': rc, 'expected': 'pass' if expect_ok else 'fail', 'as_expected': ok, 'secs': round(time.time() - t0), 'tail': tail})
    print(name, 'rc=%d' % rc, 'OK' if ok else 'UNEXPECTED', tail[-2:])
    return ok
ok = True
rc, out = sh('git apply %s/demo.diff' % seed)
if rc != 0:
    print('demo.diff does not apply', out[-300:]); sys.exit(2)
ok &= step('demo on clean tree', a.demo, True)
rc, out = sh('git apply %s/patch.diff' % seed)
if rc != 0:
    print('patch.diff does not apply', out[-300:]); sys.exit(2)
ok &= step('demo with patch', a.demo, False)
sh('git apply -R %s/demo.diff' % seed)
ok &= step('existing tests with patch', a.tests, True)
sh('git checkout -q -- . && git clean -fdq -e target')
res['confirmed'] = bool(ok)
if ok:
    dst = os.path.join(VERIF, 'seeded', a.out)
    os.makedirs(dst, exist_ok=True)
    for f in ('patch.diff', 'demo.diff', 'README.md'):
        shutil.copy(os.path.join(seed, f), os.path.join(dst, f))
    with open(os.path.join(dst, 'meta.json'), 'w') as fh:
        json.dump(res, fh, indent=1)
    print('KEPT', dst)
else:
    print('NOT CONFIRMED', json.dumps(res, indent=1)[-1500:])
