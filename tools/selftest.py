#!/usr/bin/env python3
"""Checker self-test: apply each mutant (a small breaking edit that still compiles) to a scratch copy of /repo,
run the owning property's check against the copy and require that it fires with the expected rule key.

usage: selftest.py [--only m01,m02] [--props C01,C03] [--keep] [--jobs N]
Scratch copies live under /tmp/vp_selftest_* and are removed afterwards.  Never touches /repo.
"""
import os, sys, json, shutil, subprocess, tempfile, argparse, time, re

HERE = os.path.dirname(os.path.abspath(__file__))
VERIF = os.path.dirname(HERE)
sys.path.insert(0, os.path.join(VERIF, 'selftest'))


def copy_repo(dst):
    subprocess.check_call(['rsync', '-a', '--exclude', '/target', '--exclude', '/.git', '--exclude', '/interop/bin', '/repo/', dst + '/'])


def apply_edits(root, edits):
    for e in edits:
        p = os.path.join(root, e['file'])
        s = open(p).read()
        if s.count(e['old']) != e.get('count', 1):
            return 'edit does not apply to %s (found %d, want %d): %r' % (e['file'], s.count(e['old']), e.get('count', 1), e['old'][:60])
        s = s.replace(e['old'], e['new'])
        open(p, 'w').write(s)
    return None


def run_check(prop, repo):
    env = dict(os.environ, VERIF_REPO=repo)
    r = subprocess.run([os.path.join(VERIF, 'check'), prop, '--no-evidence', '--repo', repo], cwd=VERIF, env=env,
                       stdout=subprocess.PIPE, stderr=subprocess.STDOUT, text=True)
    keys = re.findall(r'\[(?:violated|UNRECOGNISED|ANCHOR-MISSING|BELOW-FLOOR)\]\s+(\S+)', r.stdout)
    return r.returncode, keys, r.stdout


def main():
    ap = argparse.ArgumentParser()
    ap.add_argument('--only', default='')
    ap.add_argument('--props', default='')
    ap.add_argument('--keep', action='store_true')
    ap.add_argument('--json', default='')
    ap.add_argument('--twins', action='store_true', help='run the behaviour-preserving twins instead: every check must stay silent')
    ap.add_argument('--seeded', action='store_true', help='also run the confirmed sub-agent seeds under /verif/seeded')
    a = ap.parse_args()
    import mutants
    only = set(x for x in a.only.split(',') if x)
    props = set(x for x in a.props.split(',') if x)
    res = []
    muts = list(mutants.MUTANTS)
    if a.twins:
        import twins
        muts = [dict(t, expect=[], silent=t['props'], props=[]) for t in twins.TWINS]
        # behaviour-preserving refactorings written by independent sub-agents (selftest/refactors/<id>/patch.diff): every check silent
        rd = os.path.join(VERIF, 'selftest', 'refactors')
        allp = ['C%02d' % i for i in range(1, 21)]
        expected = json.load(open(os.path.join(rd, 'EXPECTED_ALARMS.json'))) if os.path.exists(os.path.join(rd, 'EXPECTED_ALARMS.json')) else {}
        for d in sorted(os.listdir(rd)) if os.path.isdir(rd) else []:
            pp = os.path.join(rd, d, 'patch.diff')
            if os.path.exists(pp):
                sil = [p_ for p_ in allp if p_ not in expected.get(d, {})]
                muts.append({'id': 'refactor:' + d, 'what': 'sub-agent refactoring of the %s code' % d.split('_')[0], 'props': [], 'expect': [], 'silent': sil, 'patch': pp})
    if a.seeded:
        sd = os.path.join(VERIF, 'seeded')
        for d in sorted(os.listdir(sd)) if os.path.isdir(sd) else []:
            mp = os.path.join(sd, d, 'meta.json')
            if os.path.exists(mp):
                meta = json.load(open(mp))
                muts.append({'id': 'seed:' + d, 'what': 'sub-agent seed: ' + meta.get('needs', ''), 'props': [meta['property']], 'expect': [], 'patch': os.path.join(sd, d, 'patch.diff')})
    base = tempfile.mkdtemp(prefix='vp_selftest_')
    try:
        for m in muts:
            if only and m['id'] not in only:
                continue
            if props and not (set(m['props']) & props):
                continue
            d = os.path.join(base, m['id'])
            os.makedirs(d)
            t0 = time.time()
            copy_repo(d)
            if 'patch' in m:
                r0 = subprocess.run(['patch', '-p1', '-s', '-i', m['patch']], cwd=d, stdout=subprocess.PIPE, stderr=subprocess.STDOUT, text=True)
                err = None if r0.returncode == 0 else 'patch does not apply: ' + r0.stdout[-200:]
            else:
                err = apply_edits(d, m['edits'])
            if err:
                res.append({'id': m['id'], 'status': 'skipped', 'why': err})
                print('%s SKIPPED %s' % (m['id'], err))
                shutil.rmtree(d, ignore_errors=True)
                continue
            killed_all = True
            detail = []
            for prop in m['props']:
                rc, keys, out = run_check(prop, d)
                want = [w for w in m['expect'] if w.startswith(prop)]
                hit = [w for w in want if any(k.startswith(w) for k in keys)]
                ok = rc == 1 and (len(hit) == len(want) if want else bool(keys))
                detail.append({'prop': prop, 'rc': rc, 'keys': keys[:12], 'want': want, 'ok': ok})
                if 'fact extraction failed' in out:
                    detail[-1]['note'] = 'mutant does not compile: ' + out[-400:]
                killed_all = killed_all and ok
            # quiet on the others: properties listed in m.get('silent', []) must not fire
            for prop in m.get('silent', []):
                rc, keys, out = run_check(prop, d)
                detail.append({'prop': prop, 'rc': rc, 'keys': keys[:6], 'silent_expected': True, 'ok': rc == 0})
                killed_all = killed_all and rc == 0
            status = ('silent' if killed_all else 'FALSE-ALARM') if a.twins else ('killed' if killed_all else 'WEAK')
            res.append({'id': m['id'], 'what': m['what'], 'status': status, 'detail': detail, 'secs': round(time.time() - t0, 1)})
            print('%s %s  %s  (%.1fs)' % (m['id'], status, m['what'], time.time() - t0))
            if not killed_all:
                for dd in detail:
                    print('    ', dd)
            if not a.keep:
                shutil.rmtree(d, ignore_errors=True)
    finally:
        if not a.keep:
            shutil.rmtree(base, ignore_errors=True)
    if a.json:
        with open(a.json, 'w') as fh:
            json.dump(res, fh, indent=1)
    weak = [r for r in res if r['status'] in ('WEAK', 'FALSE-ALARM')]
    print('selftest: %d mutants, %d killed, %d weak, %d skipped' % (len(res), sum(r['status'] == 'killed' for r in res), len(weak), sum(r['status'] == 'skipped' for r in res)))
    return 0


if __name__ == '__main__':
    sys.exit(main())
