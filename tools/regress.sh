#!/bin/sh
# full regression of the checker itself: hand mutants must be killed, twins silent, kept seeds detected
cd "$(dirname "$0")/.."
python3 tools/selftest.py 2>&1 | tail -3
python3 tools/selftest.py --twins 2>&1 | grep -E "FALSE-ALARM|selftest:" 
python3 tools/seeded_matrix.py 2>&1 | grep -c caught
python3 tools/seeded_matrix.py 2>&1 | grep -E "MISSED|n/a" || true
