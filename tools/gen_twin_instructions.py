#!/usr/bin/env python3
"""Write the instruction file handed to an independent sub-agent that is asked for BEHAVIOUR-PRESERVING refactorings
(false-alarm hunt).  The sub-agent sees the property's title/statement only - nothing from /verif.
usage: gen_twin_instructions.py <worktree-prefix> <out-prefix> <instr-dir>
   e.g. gen_twin_instructions.py /tmp/wt11_ /tmp/refac6/ /tmp/p11
"""
import json, os, sys

TEMPLATE = """You are helping test a verification tool for false alarms. Your job: make realistic BEHAVIOUR-PRESERVING changes to a Rust code base (hyperium/tonic, a gRPC framework) in the code that implements one stated behavioural property. The property must still hold after each change - for every input, not just the tested ones.

Work ONLY inside the git worktree directory {wt} (a checkout of the repository). Do not read or write anything under /verif or /repo. Everything is offline: use `cargo ... --offline`; set CARGO_TARGET_DIR={wt}/target. Do not run `cargo test --workspace` (too slow); run the tests of the crates you touched, e.g. `cargo test -p tonic --offline --lib`, and any obviously related integration test crate (`-p integration-tests`, `-p compression`, `-p test_web`, `-p tonic-web`, `-p tonic-health`, `-p tonic-types`; tonic-reflection needs `--all-features --features tonic/router`) to confirm they still pass (one test, integration-tests::connection::connect_handles_tls, fails even without changes; ignore it). Other agents are building at the same time: use `-j 4` for cargo.

The property whose implementation you are to refactor is:

{title}

{statement}

First find and read the library code that implements this behaviour (the central functions, their helpers, constructors, conversions, and the same behaviour in other crates of the workspace where it exists). Write the kind of refactoring pull requests a project like this actually receives from regular contributors - ordinary, reviewable, 10-80 changed lines - not exotic redesigns. Examples: renaming private functions, private struct fields, locals or parameters; changing the order or the types of private function parameters (e.g. pass a struct or a reference instead of several values) and updating callers; moving a private function to another module or turning a free function into a method (or back); splitting one function into two phases or merging two small functions; replacing a hand-written loop with iterator adapters or vice versa; introducing a small private enum/struct/newtype to carry intermediate state; replacing combinator chains with early returns; hoisting or sinking computations whose order cannot be observed; making a closure a named private function; consolidating duplicated code into a helper; changing a private constant's definition to an equal expression; let-else, `matches!`, `is_some_and`, `?` instead of match (or the reverse); removing a redundant clone; adding a tracing call, a comment or a debug assertion that cannot fire.

Then produce TWO different, independent refactorings of that code (each as its own patch against a clean checkout), of the kind a maintainer would plausibly merge:
 (1) one in the CENTRAL function(s) that carry the property;
 (2) one in the SURROUNDING code the property also depends on - a constructor, builder/setter, conversion or trait impl (Clone, Default, From, Drop, poll_ready, size_hint, is_end_stream), a helper in another module, the same behaviour in another crate of the workspace (tonic-web, tonic-health, tonic-reflection, tonic-types, tonic-prost, tonic-build code generation templates, tonic/src/transport, service/router/layer adapters) or a feature-gated variant.
Each refactoring must touch the code that actually implements the property (not unrelated code), must compile without new warnings-as-errors, must keep all existing tests passing, and must NOT change observable behaviour in any case (same outputs, same errors, same ordering of effects that a peer or caller can see). No public API changes.

Deliver, for refactoring n in {{1,2}}, a directory {out}{cid}_n/ containing:
   patch.diff   - `git diff` of the change (applies with `git apply` to a clean checkout)
   README.md    - one paragraph: what was changed and why behaviour is unchanged for every input; the test commands you ran and their outcome.
When finished, leave the worktree clean (`git checkout -- . && git clean -fdq`) and delete {wt}/target. Reply with a short summary of the two refactorings.

Never use `git stash`. Do not create commits.
"""

def main():
    wtp, outp, idir = sys.argv[1:4]
    here = os.path.dirname(os.path.dirname(os.path.abspath(__file__)))
    for line in open(os.path.join(here, 'properties.jsonl')):
        p = json.loads(line)
        cid = p['id']
        s = TEMPLATE.format(wt=wtp + cid, title=p['title'], statement=p['statement'], out=outp, cid=cid)
        os.makedirs(os.path.join(idir, cid), exist_ok=True)
        open(os.path.join(idir, cid, 'instructions.txt'), 'w').write(s)
    print('wrote', idir)

if __name__ == '__main__':
    main()
